"""Mutant / benign-twin corpus.  Each case: id, props (checks expected to react), edits [(file, old, new)],
kind 'mutant' (default; every listed check must report a VIOLATION) or 'benign' (every listed check must
pass), optional rules (prefixes of rule ids, one of which must be among the findings)."""

PU, PP, PS, PC, PD = ('pyclifford/utils.py', 'pyclifford/paulialg.py', 'pyclifford/stabilizer.py',
                      'pyclifford/circuit.py', 'pyclifford/device.py')
TU, TP, TS, TC = ('torchclifford/utils.py', 'torchclifford/paulialg.py', 'torchclifford/stabilizer.py',
                  'torchclifford/circuit.py')

CASES = []


def M(id, props, file, old, new, rules=None, scope=None):
    CASES.append({'id': id, 'props': props if isinstance(props, list) else [props],
                  'edits': [(file, old, new, scope)], 'kind': 'mutant', 'rules': rules})


def B(id, props, file, old, new, scope=None):
    CASES.append({'id': id, 'props': props if isinstance(props, list) else [props],
                  'edits': [(file, old, new, scope)], 'kind': 'benign'})


# ------------------------------------------------------------------ C01
M('c01-ipow-sign', ['C01'], PU, 'ipow += g1z * g2x - g1x * g2z + 2*', 'ipow += g1x * g2z - g1z * g2x + 2*', ['R8'])
M('c01-ipow-drop2', ['C01'], PU, '+ 2*((gx//2) * gz + gx * (gz//2))', '+ ((gx//2) * gz + gx * (gz//2))', ['R8'])
M('c01-acq-index', ['C01'], PU, 'acq += g1[2*i+1]*g2[2*i] - g1[2*i]*g2[2*i+1]', 'acq += g1[2*i+1]*g2[2*i] - g1[2*i]*g2[2*i]', ['R8'])
M('c01-acq-mod', ['C01'], PU, '    return acq % 2', '    return acq % 4', ['R8'])
M('c01-ipow-init', ['C01'], PU, '    ipow = 0\n', '    ipow = 1\n', ['R8'])
M('c01-acq-slot', ['C01'], PU, 'acq += g1[2*i+1]*g2[2*i]', 'acq += g1[2*i+2]*g2[2*i]', ['R8'])
M('c01-matmul-drop-p', ['C01'], PP, 'p = (self.p + other.p + ipow(self.g, other.g)) % 4', 'p = (self.p + ipow(self.g, other.g)) % 4', ['R7e'])
M('c01-matmul-swap', ['C01'], PP, 'ipow(self.g, other.g)) % 4', 'ipow(other.g, self.g)) % 4', ['R7c'])
M('c01-batchdot-swap', ['C01'], PU, 'ipow(gs1[j1], gs2[j2]))%4', 'ipow(gs2[j2], gs1[j1]))%4', ['R7c'])
M('c01-batchdot-mod', ['C01'], PU, 'ps[j1,j2] = (ps1[j1] + ps2[j2] + ipow(gs1[j1], gs2[j2]))%4', 'ps[j1,j2] = (ps1[j1] + ps2[j2] + ipow(gs1[j1], gs2[j2]))', ['R7d'])
M('c01-batchdot-noipow', ['C01'], PU, 'ps[j1,j2] = (ps1[j1] + ps2[j2] + ipow(gs1[j1], gs2[j2]))%4', 'ps[j1,j2] = (ps1[j1] + ps2[j2])%4', ['R7a'])
M('c01-tc-ipow-drop2', ['C01', 'C13'], TU, "    return torch.sum(g1z * g2x - g1x * g2z + 2*(torch.div(gx, 2, rounding_mode='floor') * gz + gx * torch.div(gz, 2, rounding_mode='floor')), dim=-1) % 4", "    return torch.sum(g1z * g2x - g1x * g2z, dim=-1) % 4", ['R8'])
M('c01-tc-acq-slice', ['C01'], TU, '    gz1, gz2 = g1[...,1::2], g2[...,1::2]\n    return torch.sum(', '    gz1, gz2 = g1[...,1::2], g2[...,::2]\n    return torch.sum(', ['R8'])
M('c01-tc-bcast', ['C01'], TU, 'cs = (cs1.unsqueeze(1)*cs2.unsqueeze(0)).view(-1,)', 'cs = (cs1.unsqueeze(0)*cs2.unsqueeze(1)).view(-1,)', ['R13'])
M('c01-tc-repeat', ['C01'], TU, 'g1[...,1::2].repeat(1, L2).view(L1*L2, -1)', 'g1[...,1::2].repeat(L2, 1).view(L1*L2, -1)', ['R13'])
M('c01-poly-order', ['C01'], PP, 'batch_dot(self.gs, self.ps, self.cs, other.gs, other.ps, other.cs)', 'batch_dot(other.gs, other.ps, other.cs, self.gs, self.ps, self.cs)', ['R2'])
M('c01-poly-owner', ['C01'], PP, 'batch_dot(self.gs, self.ps, self.cs, other.gs, other.ps, other.cs)', 'batch_dot(self.gs, other.ps, self.cs, other.gs, self.ps, other.cs)', ['R2'])
M('c01-coef', ['C01'], PU, 'cs[j1,j2] = cs1[j1] * cs2[j2]', 'cs[j1,j2] = cs1[j1] * cs1[j1]', ['R7.coef'])
B('c01-benign-commute', ['C01'], PU, 'ipow += g1z * g2x - g1x * g2z + 2*((gx//2) * gz + gx * (gz//2))', 'ipow += 2*(gx * (gz//2) + (gx//2) * gz) - g1x * g2z + g2x * g1z')
B('c01-benign-rename', ['C01'], PU, '        acq += g1[2*i+1]*g2[2*i] - g1[2*i]*g2[2*i+1]\n    return acq % 2', '        acq += g1[1+2*i]*g2[i*2] - g1[2*i]*g2[2*i+1]\n    return acq % 2')
B('c01-benign-matmul-order', ['C01'], PP, 'p = (self.p + other.p + ipow(self.g, other.g)) % 4', 'p = (ipow(self.g, other.g) + other.p + self.p) % 4')

# ------------------------------------------------------------------ C02
M('c02-const3', ['C02'], PU, 'ps[j] = (ps[j] + p + 1 + ipow(gs[j], g))%4', 'ps[j] = (ps[j] + p + 3 + ipow(gs[j], g))%4', ['R7c'])
M('c02-order', ['C02'], PU, '            ps[j] = (ps[j] + p + 1 + ipow(gs[j], g))%4\n            gs[j] = (gs[j] + g)%2\n    return gs, ps', '            gs[j] = (gs[j] + g)%2\n            ps[j] = (ps[j] + p + 1 + ipow(gs[j], g))%4\n    return gs, ps', ['R7b'])
M('c02-drop-p', ['C02'], PU, 'ps[j] = (ps[j] + p + 1 + ipow(gs[j], g))%4', 'ps[j] = (ps[j] + 1 + ipow(gs[j], g))%4', ['R7e'])
M('c02-swap-ipow', ['C02'], PU, 'ps[j] = (ps[j] + p + 1 + ipow(gs[j], g))%4', 'ps[j] = (ps[j] + p + 1 + ipow(g, gs[j]))%4', ['R7c'])
M('c02-guard-neg', ['C02'], PU, '        if acq(g, gs[j]):\n            ps[j] = (ps[j] + p + 1', '        if not acq(g, gs[j]):\n            ps[j] = (ps[j] + p + 1', ['R7.guard'])
M('c02-guard-gone', ['C02'], PU, '        if acq(g, gs[j]):\n            ps[j] = (ps[j] + p + 1', '        if True:\n            ps[j] = (ps[j] + p + 1', ['R7.guard'])
M('c02-scatter', ['C02'], PP, '            self.gs[:,mask2], self.ps = clifford_rotate(\n                generator.g, generator.p, self.gs[:,mask2], self.ps)', '            self.gs[:,mask], self.ps = clifford_rotate(\n                generator.g, generator.p, self.gs[:,mask2], self.ps)', ['R5', 'R13'])
M('c02-tile', ['C02'], PP, '            mask2 = numpy.repeat(mask,  2)', '            mask2 = numpy.tile(mask,  2)', ['R13.mask'])
M('c02-genphase', ['C02'], PP, '            clifford_rotate(generator.g, generator.p, self.gs, self.ps)', '            clifford_rotate(generator.g, 0, self.gs, self.ps)', ['R6.gen'])
M('c02-discard-masked', ['C02'], PP, '            self.gs[:,mask2], self.ps = clifford_rotate(\n                generator.g, generator.p, self.gs[:,mask2], self.ps)', '            clifford_rotate(\n                generator.g, generator.p, self.gs[:,mask2], self.ps)', ['R5'])
M('c02-tc-discard', ['C02'], TP, '            self.gs, self.ps = clifford_rotate(generator.g, generator.p, self.gs, self.ps)', '            clifford_rotate(generator.g, generator.p, self.gs, self.ps)', ['R5'])
M('c02-tc-unmasked-phase', ['C02'], TU, 'ps = (ps + (p + 1 + ipow(gs, g.unsqueeze(0))) * mask) % 4', 'ps = (ps + (p + 1 + ipow(gs, g.unsqueeze(0))) * mask + mask*0 + 2*(1-mask)*0 + p) % 4', ['R7'])
M('c02-tc-order', ['C02'], TU, 'ps = (ps + (p + 1 + ipow(gs, g.unsqueeze(0))) * mask) % 4', 'ps = (ps + (p + 1 + ipow(g.unsqueeze(0), gs)) * mask) % 4', ['R7c'])
M('c02-tc-mask', ['C02'], TU, '    mask = acq(g, gs)\n    ps = (ps + (p + 1', '    mask = 1 - acq(g, gs)\n    ps = (ps + (p + 1', ['R7.guard'])
M('c02-map-init', ['C02'], PS, '    ps = numpy.zeros(2*gen.N, dtype=numpy.int_) # initialize', '    ps = numpy.ones(2*gen.N, dtype=numpy.int_) # initialize', ['R12.init'])
M('c02-neg', ['C02'], PP, '    def __neg__(self):\n        return type(self)(self.g, (self.p + 2) % 4)', '    def __neg__(self):\n        return type(self)(self.g, (self.p + 1) % 4)', ['R12.neg'])
M('c02-back', ['C02'], PP, '        result = self.as_list().rotate_by(generator, mask=mask)\n        self.g = result.gs[0]\n        self.p = result.ps[0]', '        result = self.as_list().rotate_by(generator, mask=mask)\n        self.g = result.gs[0]', ['R5.back'])
M('c02-signless-guard', ['C02'], PU, '        if acq(g, gs[j]):\n            gs[j] = (gs[j] + g)%2\n    return gs\n', '        if acq(g, gs[j]) == 0:\n            gs[j] = (gs[j] + g)%2\n    return gs\n', ['R7.guard'])
B('c02-benign-gp3', ['C02'], PU, 'ps[j] = (ps[j] + p + 1 + ipow(gs[j], g))%4', 'ps[j] = (ipow(g, gs[j]) + 3 + p + ps[j])%4')
B('c02-benign-guard', ['C02'], PU, '        if acq(g, gs[j]):\n            ps[j] = (ps[j] + p + 1', '        if acq(gs[j], g) == 1:\n            ps[j] = (ps[j] + p + 1')
B('c02-benign-guard2', ['C02'], PU, '        if acq(g, gs[j]):\n            ps[j] = (ps[j] + p + 1', '        if acq(g, gs[j]) != 0:\n            ps[j] = (ps[j] + p + 1')

# ------------------------------------------------------------------ C03
M('c03-drop-ps0', ['C03'], PU, '    ps_out = (ps_in + ps0(gs_in) + ps_out)%4', '    ps_out = (ps_in + ps_out)%4', ['R6.formula'])
M('c03-combine-swap-stmts', ['C03'], PU, '                ps_out[j_out] = (ps_out[j_out] + ps_in[j_in] + ipow(gs_out[j_out], gs_in[j_in]))%4\n                gs_out[j_out] = (gs_out[j_out] + gs_in[j_in])%2', '                gs_out[j_out] = (gs_out[j_out] + gs_in[j_in])%2\n                ps_out[j_out] = (ps_out[j_out] + ps_in[j_in] + ipow(gs_out[j_out], gs_in[j_in]))%4', ['R7b'])
M('c03-combine-order', ['C03'], PU, 'ipow(gs_out[j_out], gs_in[j_in]))%4', 'ipow(gs_in[j_in], gs_out[j_out]))%4', ['R7c'])
M('c03-combine-desc', ['C03'], PU, '        for j_in in range(L_in):\n            if C[j_out, j_in]:', '        for j_in in range(L_in-1, -1, -1):\n            if C[j_out, j_in]:', ['R10.asc'])
M('c03-combine-select-T', ['C03'], PU, '            if C[j_out, j_in]:', '            if C[j_in, j_out]:', ['R7.select'])
M('c03-combine-drop-phase-in', ['C03'], PU, 'ps_out[j_out] = (ps_out[j_out] + ps_in[j_in] + ipow', 'ps_out[j_out] = (ps_out[j_out] + ipow', ['R7e'])
M('c03-transform-args', ['C03'], PU, '    gs_out, ps_out = pauli_combine(gs_in, gs_map, ps_map)', '    gs_out, ps_out = pauli_combine(gs_map, gs_in, ps_map)', ['R2'])
M('c03-transform-psin', ['C03'], PU, '    gs_out, ps_out = pauli_combine(gs_in, gs_map, ps_map)', '    gs_out, ps_out = pauli_combine(gs_in, gs_map, ps_in)', ['R2'])
M('c03-transform-mod', ['C03'], PU, '    ps_out = (ps_in + ps0(gs_in) + ps_out)%4', '    ps_out = (ps_in + ps0(gs_in) + ps_out)%2', ['R7d'])
M('c03-embed-ps-mask', ['C03'], PS, '        self.ps[mask2] = small_map.ps', '        self.ps[mask] = small_map.ps', ['R13'])
M('c03-embed-tile', ['C03'], PS, '    def embed(self, small_map, mask):\n        \'\'\'Embed a smaller map acting on a subsystem specified by qubit indices.\'\'\'\n        mask2 = numpy.repeat(mask, 2)', '    def embed(self, small_map, mask):\n        \'\'\'Embed a smaller map acting on a subsystem specified by qubit indices.\'\'\'\n        mask2 = numpy.tile(mask, 2)', ['R13.mask'])
M('c03-embed-src', ['C03'], PS, '        self.ps[mask2] = small_map.ps', '        self.ps[mask2] = self.ps[mask2]', ['R2.embed'])
M('c03-transformby-scatter', ['C03'], PP, '            self.gs[:,mask2], self.ps = pauli_transform(\n                self.gs[:,mask2], self.ps, clifford_map.gs, clifford_map.ps)', '            self.gs[:,mask2], self.ps = pauli_transform(\n                self.gs[:,mask], self.ps, clifford_map.gs, clifford_map.ps)', ['R5', 'R13'])
M('c03-transformby-swap', ['C03'], PP, '            self.gs, self.ps = pauli_transform(self.gs, self.ps, \n                clifford_map.gs, clifford_map.ps)', '            self.gs, self.ps = pauli_transform(clifford_map.gs, clifford_map.ps, \n                self.gs, self.ps)', ['R2'])
M('c03-transformby-owner', ['C03'], PP, '            self.gs, self.ps = pauli_transform(self.gs, self.ps, \n                clifford_map.gs, clifford_map.ps)', '            self.gs, self.ps = pauli_transform(self.gs, clifford_map.ps, \n                clifford_map.gs, self.ps)', ['R2'])
M('c03-tc-ps0', ['C03', 'C13'], TU, "    return torch.sum(gs[...,::2] * gs[...,1::2], dim=-1) % 4", "    return torch.sum(gs[...,::2] + gs[...,1::2], dim=-1) % 4", ['R8'])
M('c03-ps0-slot', ['C03'], PU, 'ps0[j] += gs[j,2*i] * gs[j,2*i+1]', 'ps0[j] += gs[j,2*i] * gs[j,2*i]', ['R8'])
M('c03-start', ['C03'], PU, '    ps_out = numpy.zeros((L_out,), dtype=numpy.int_)\n    for j_out', '    ps_out = numpy.ones((L_out,), dtype=numpy.int_)\n    for j_out', ['R7.start'])
B('c03-benign-formula', ['C03'], PU, '    ps_out = (ps_in + ps0(gs_in) + ps_out)%4', '    ps_out = (ps_out + ps_in + ps0(gs_in))%4')

# ------------------------------------------------------------------ C17
M('c17-pauli-copy', ['C17'], PP, '        return Pauli(self.g.copy(), self.p)', '        return Pauli(self.g, self.p)', ['R4c'])
M('c17-list-copy', ['C17'], PP, '        return PauliList(self.gs.copy(), self.ps.copy())', '        return PauliList(self.gs.copy(), self.ps)', ['R4c'])
M('c17-poly-copy-cs', ['C17'], PP, '.set_cs(self.cs.copy())', '.set_cs(self.cs)', ['R4c'])
M('c17-poly-copy-nocs', ['C17'], PP, '        return PauliPolynomial(self.gs.copy(), self.ps.copy()).set_cs(self.cs.copy())', '        return PauliPolynomial(self.gs.copy(), self.ps.copy())', ['R4d'])
M('c17-mono-copy', ['C17'], PP, '        return PauliMonomial(self.g.copy(), self.p).set_c(self.c)', '        return PauliMonomial(self.g.copy(), self.p)', ['R4d'])
M('c17-map-copy', ['C17'], PS, '        return CliffordMap(self.gs.copy(), self.ps.copy())', '        return CliffordMap(self.gs.copy())', ['R4d'])
M('c17-state-copy-r', ['C17'], PS, '        return StabilizerState(self.gs.copy(), self.ps.copy()).set_r(self.r)', '        return StabilizerState(self.gs.copy(), self.ps.copy())', ['R4d'])
M('c17-state-copy-view', ['C17'], PS, '        return StabilizerState(self.gs.copy(), self.ps.copy()).set_r(self.r)', '        return StabilizerState(self.gs[:], self.ps.copy()).set_r(self.r)', ['R4c'])
M('c17-state-init-f1', ['C17', 'C05', 'C12'], PS, '    def __init__(self, gs, ps=None, r=0):\n        super(StabilizerState, self).__init__(gs, ps)', '    def __init__(self, gs, r=0, **kwargs):\n        super(StabilizerState, self).__init__(gs, **kwargs)', ['R4d', 'R2'])
M('c17-gate-copy-gen', ['C17'], PC, '            gate.generator = self.generator.copy()', '            gate.generator = self.generator', ['R4c'])
M('c17-gate-copy-map', ['C17'], PC, '            gate.forward_map = self.forward_map.copy()\n        if self.backward_map is not None:\n            gate.backward_map = self.backward_map.copy()\n        return gate', '            gate.forward_map = self.forward_map.copy()\n        return gate', ['R4d'])
M('c17-layer-copy-gates', ['C17'], PC, '        layer = CliffordLayer(*[gate.copy() for gate in self.gates])', '        layer = CliffordLayer(*self.gates)', ['R4c'])
M('c17-circ-copy-layer', ['C17'], PC, '            new_layer = layer.copy()\n            if i == 0:', '            new_layer = layer\n            if i == 0:', ['R4c'])
M('c17-expect-nocopy', ['C17', 'C07'], PS, 'stabilizer_projection_trace(numpy.array(self.gs), numpy.array(self.ps), \\', 'stabilizer_projection_trace(self.gs, numpy.array(self.ps), \\', ['R4a'])
B('c17-benign-obs-view', ['C17', 'C07'], PS, 'numpy.array(obs.gs[obs.r:obs.N,:]), numpy.array(obs.ps[obs.r:obs.N]), 0)', 'numpy.array(obs.gs[obs.r:obs.N,:]), obs.ps[obs.r:obs.N], 0)')
M('c17-snapshot-nocopy', ['C17', 'C19'], PD, '            snapshot = self.state.copy()', '            snapshot = self.state', ['R4a'])
M('c17-compose-inplace', ['C17', 'C04'], PS, '        gs, ps = pauli_transform(self.gs, self.ps, other.gs, other.ps)\n        return CliffordMap(gs, ps)', '        self.gs, self.ps = pauli_transform(self.gs, self.ps, other.gs, other.ps)\n        return self', ['R4a'])
M('c17-entropy-destroy', ['C17'], PU, '        hidden = z2rank(gs_across_sub) - z2rank(acq_mat(gs_across_sub))', '        hidden = z2rank(gs) - z2rank(acq_mat(gs_across_sub))', ['R4a'])
M('c17-measure-obs', ['C17'], PS, '        if isinstance(obs, StabilizerState):\n            obs = obs.stabilizers\n        self.gs, self.ps, self.r, out, log2prob = stabilizer_measure(', '        if isinstance(obs, StabilizerState):\n            obs = obs.stabilizers\n        obs.ps[:] = obs.ps % 4\n        self.gs, self.ps, self.r, out, log2prob = stabilizer_measure(', ['R4b'])
M('c17-tc-expect-nocopy', ['C17', 'C07'], TS, 'stabilizer_projection_trace(self.gs.detach().clone(), self.ps.detach().clone(), \\', 'stabilizer_projection_trace(self.gs.detach(), self.ps.detach().clone(), \\', ['R4a'])
M('c17-neg-inplace', ['C17'], PP, '    def __neg__(self):\n        return type(self)(self.gs, (self.ps + 2) % 4)', '    def __neg__(self):\n        self.ps[:] = (self.ps + 2) % 4\n        return self', ['R4a'])
M('c17-rotate-generator', ['C17'], PP, '        if mask is None:\n            clifford_rotate(generator.g, generator.p, self.gs, self.ps)', '        if mask is None:\n            generator.g[:] = generator.g % 2\n            clifford_rotate(generator.g, generator.p, self.gs, self.ps)', ['R4b'])
M('c17-getprob-inplace', ['C17', 'C07'], PS, '        readout_state = identity_map(self.N).to_state()\n        readout_state.ps[:self.N]=2*readout', '        readout_state = self\n        readout_state.ps[:self.N]=2*readout', ['R4a'])
B('c17-benign-array', ['C17'], PP, '        return Pauli(self.g.copy(), self.p)', '        return Pauli(numpy.array(self.g), self.p)')
B('c17-benign-kw', ['C17'], PS, '        return CliffordMap(self.gs.copy(), self.ps.copy())', '        return CliffordMap(gs=self.gs.copy(), ps=self.ps.copy())')

# ------------------------------------------------------------------ C04
M('c04-compose-order', ['C04'], PS, '        gs, ps = pauli_transform(self.gs, self.ps, other.gs, other.ps)\n        return CliffordMap(gs, ps)', '        gs, ps = pauli_transform(other.gs, other.ps, self.gs, self.ps)\n        return CliffordMap(gs, ps)', ['R2'])
M('c04-inverse-sign', ['C04'], PS, '        ps_inv = (- ps_mis - ps0(gs_inv))%4', '        ps_inv = (ps_mis - ps0(gs_inv))%4', ['R6.inverse'])
M('c04-inverse-drop-ps0', ['C04'], PS, '        ps_inv = (- ps_mis - ps0(gs_inv))%4', '        ps_inv = (- ps_mis)%4', ['R6.inverse'])
M('c04-inverse-combine', ['C04'], PS, '        gs_iden, ps_mis = pauli_combine(gs_inv, self.gs, self.ps)', '        gs_iden, ps_mis = pauli_combine(self.gs, gs_inv, self.ps)', ['R2'])
M('c04-inverse-inplace', ['C04', 'C17'], PS, '        gs_inv = z2inv(self.gs)\n', '        gs_inv = z2inv(self.gs)\n        self.ps[:] = self.ps % 4\n', ['R4a'])
M('c04-inverse-return', ['C04'], PS, '        return CliffordMap(gs_inv, ps_inv)', '        return CliffordMap(gs_inv, ps_mis)', ['R2'])
M('c04-identity', ['C04'], PS, '    gs = numpy.eye(2*N, dtype=numpy.int_)\n    return CliffordMap(gs)', '    gs = numpy.eye(2*N, dtype=numpy.int_)\n    return CliffordMap(gs, 2*numpy.ones(2*N, dtype=numpy.int_))', ['R12.identity'])
M('c04-tc-compose-alias', ['C04'], TS, '        gs, ps = pauli_transform(self.gs, self.ps, other.gs, other.ps)\n        return CliffordMap(gs, ps)', '        gs, ps = pauli_transform(self.gs, self.ps, other.gs, other.ps)\n        return CliffordMap(gs, other.ps)', ['R4a', 'R2'])

# ------------------------------------------------------------------ C06  (anchors inside stabilizer_measure: unique by the
# surrounding text of the measurement kernel)
MEAS_HEAD = "    out = numpy.empty(L, dtype=numpy.int_)\n    ga = numpy.empty(2*N, dtype=numpy.int_) # workspace for stabilizer accumulation\n    pa = 0 # workspace for phase accumulation\n    log2prob = 0.\n"
M('c06-drop-r', ['C06'], PS, '        self.gs, self.ps, self.r, out, log2prob = stabilizer_measure(\n            self.gs, self.ps, obs.gs, obs.ps, self.r)', '        self.gs, self.ps, _, out, log2prob = stabilizer_measure(\n            self.gs, self.ps, obs.gs, obs.ps, self.r)', ['R5'])
M('c06-log2prob', ['C06'], PU, '            log2prob -= 1.\n', '            log2prob -= 0.\n', ['R11.coin'])
M('c06-log2prob-del', ['C06'], PU, "            out[k] = ((ps_stb[p] - ps_obs[k])%4)//2 #0->0(+1 eigenvalue), 2->1(-1 eigenvalue)\n            log2prob -= 1.\n", "            out[k] = ((ps_stb[p] - ps_obs[k])%4)//2 #0->0(+1 eigenvalue), 2->1(-1 eigenvalue)\n", ['R11.coin'])
M('c06-coin3', ['C06', 'C16'], PU, '            ps_stb[p] = 2 * numpy.random.randint(2)', '            ps_stb[p] = 2 * numpy.random.randint(3)', ['R15', 'R11'])
M('c06-coin-bit', ['C06', 'C05'], PU, '            ps_stb[p] = 2 * numpy.random.randint(2)', '            ps_stb[p] = numpy.random.randint(2)', ['R3a', 'R11'])
M('c06-decode', ['C06'], PU, "            out[k] = ((ps_stb[p] - ps_obs[k])%4)//2 #0->0", "            out[k] = ((ps_stb[p] - ps_obs[k])%4) #0->0", ['R3.decode'])
M('c06-decode-det', ['C06'], PU, "            assert((ga == gs_obs[k]).all())\n            out[k] = ((pa - ps_obs[k])%4)//2\n    return gs_stb, ps_stb, r, out, log2prob", "            assert((ga == gs_obs[k]).all())\n            out[k] = ((pa + ps_obs[k] + 2)%4)//2\n    return gs_stb, ps_stb, r, out, log2prob", ['R3.decode'])
M('c06-decode-k', ['C06'], PU, "            assert((ga == gs_obs[k]).all())\n            out[k] = ((pa - ps_obs[k])%4)//2\n    return gs_stb, ps_stb, r, out, log2prob", "            assert((ga == gs_obs[k]).all())\n            out[k] = ((pa - ps_obs[0])%4)//2\n    return gs_stb, ps_stb, r, out, log2prob", ['R3.decode'])
M('c06-measure-args', ['C06'], PS, '            self.gs, self.ps, obs.gs, obs.ps, self.r)\n        return out, log2prob', '            self.gs, self.ps, obs.gs, self.ps, self.r)\n        return out, log2prob', ['R2'])
M('c06-tc-drop-r', ['C06'], TS, '        self.gs, self.ps, self.r, out, log2prob = stabilizer_measure(', '        self.gs, self.ps, r, out, log2prob = stabilizer_measure(', ['R5'])

SM = 'stabilizer_measure'
M('c06-pivot-guard', ['C06', 'C05'], PU, 'if j < N + r: # if gs_stb[j] is not an active destabilizer', 'if j < N: # if gs_stb[j] is not an active destabilizer', ['R9.pivot'], SM)
M('c06-pivot-guard-le', ['C06', 'C05'], PU, 'if j < N + r: # if gs_stb[j] is not an active destabilizer', 'if j <= N + r: # if gs_stb[j] is not an active destabilizer', ['R9'], SM)
M('c06-extend-guard', ['C06', 'C05'], PU, 'if not r <= j < N: # if gs_stb[j] is a standby operator', 'if not r < j < N: # if gs_stb[j] is a standby operator', ['R9.extend'], SM)
M('c06-phase-guard', ['C06', 'C05'], PU, 'if j < N: # if gs_stb[j] is a stablizer, phase matters', 'if j < r: # if gs_stb[j] is a stablizer, phase matters', ['R9.phase'], SM)
M('c06-accum-row', ['C06'], PU, 'ga = (ga + gs_stb[j-N])%2', 'ga = (ga + gs_stb[j])%2', ['R9.accum', 'R7'], SM)
M('c06-r-dec', ['C06', 'C05'], PU, '                r -= 1 # rank will reduce under extension\n', '                pass\n', ['R9.block'], SM)
M('c06-order', ['C06', 'C05'], PU, '            gs_stb[q] = gs_stb[p] # move gs_stb[p] to gs_stb[q]\n            gs_stb[p] = gs_obs[k] # add gs_obs[k] to gs_stb[p]', '            gs_stb[p] = gs_obs[k] # add gs_obs[k] to gs_stb[p]\n            gs_stb[q] = gs_stb[p] # move gs_stb[p] to gs_stb[q]', ['R9.block'], SM)
M('c06-partner', ['C06', 'C05'], PU, 'q = (p+N)%(2*N) # get q as dual of p ', 'q = (p+N)%(2*N-1) # get q as dual of p ', ['R9.block'], SM)
M('c06-p-eq-r', ['C06', 'C05'], PU, '# swap q,s\n                p = r', '# swap q,s', ['R9.block'], SM)
M('c06-swap-view', ['C06', 'C05'], PU, 'gs_stb[numpy.array([p,q])] = gs_stb[numpy.array([q,p])] # swap p,q', 'gs_stb[p], gs_stb[q] = gs_stb[q], gs_stb[p] # swap p,q', ['R9.block'], SM)
M('c06-swap-missing', ['C06', 'C05'], PU, '                    gs_stb[numpy.array([q,s])] = gs_stb[numpy.array([s,q])] # swap q,s\n', '', ['R9.block'], SM)
M('c06-row-phase-gone', ['C06'], PU, 'ps_stb[j] = (ps_stb[j] + ps_stb[p] + ipow(gs_stb[j], gs_stb[p]))%4', 'pass', ['R7a'], SM)
M('c06-det-writes', ['C06'], PU, '            assert((ga == gs_obs[k]).all())\n', '            assert((ga == gs_obs[k]).all())\n            log2prob -= 1.\n', ['R11.coin'], SM)
B('c06-benign-guard', ['C06', 'C05'], PU, 'if j < N + r: # if gs_stb[j] is not an active destabilizer', 'if not j >= N + r: # if gs_stb[j] is not an active destabilizer', SM)
B('c06-benign-guard2', ['C06', 'C05'], PU, 'if j < N + r: # if gs_stb[j] is not an active destabilizer', 'if N + r > j: # if gs_stb[j] is not an active destabilizer', SM)
B('c06-benign-extend', ['C06', 'C05'], PU, 'if not r <= j < N: # if gs_stb[j] is a standby operator', 'if j < r or j >= N: # if gs_stb[j] is a standby operator', SM)
B('c06-benign-partner', ['C06', 'C05'], PU, 'q = (p+N)%(2*N) # get q as dual of p ', 'q = p + N if p < N else p - N # get q as dual of p ', SM)

# ------------------------------------------------------------------ C05
SP, ST, SO = 'stabilizer_project', 'stabilizer_projection_trace', 'stabilizer_postselection'
M('c05-project-pivot', ['C05'], PU, 'if j < N + r: # if gs_stb[j] is not an active destabilizer', 'if j < N: # if gs_stb[j] is not an active destabilizer', ['R9.pivot'], SP)
M('c05-project-r', ['C05', 'C12'], PU, '                r -= 1 # rank will reduce under extension\n', '', ['R9.block'], SP)
M('c05-project-extend', ['C05'], PU, 'if not r <= j < N: # if gs_stb[j] is a standby operator', 'if not r <= j <= N: # if gs_stb[j] is a standby operator', ['R9.extend'], SP)
M('c05-project-mod', ['C05'], PU, 'gs_stb[j] = (gs_stb[j] + gs_stb[p])%2 # update gs_stb[j] to commute with gs_obs[k]', 'gs_stb[j] = (gs_stb[j] + gs_stb[p]) # update gs_stb[j] to commute with gs_obs[k]', ['R7d'], SP)
M('c05-trace-swap', ['C05', 'C07'], PU, 'gs_stb[numpy.array([p,r])] = gs_stb[numpy.array([r,p])] # swap p,r', 'gs_stb[numpy.array([p,r])] = gs_stb[numpy.array([r,q])] # swap p,r', ['R9.block'], ST)
M('c05-trace-phase-at', ['C05', 'C07'], PU, '            ps_stb[p] = ps_obs[k]\n            trace = trace/2.', '            ps_stb[q] = ps_obs[k]\n            trace = trace/2.', ['R9.block'], ST)
M('c05-post-pivot', ['C05', 'C14'], PU, '                if j < N: # if gs_stb[j] is not an active destabilizer', '                if j <= N: # if gs_stb[j] is not an active destabilizer', ['R9.pivot'], SO)
M('c05-post-order', ['C05', 'C14'], PU, '        gs_stb[q] = gs_stb[p] # move gs_stb[p] to gs_stb[q]\n        gs_stb[p] = gs_ob # add gs_obs[k] to gs_stb[p]', '        gs_stb[p] = gs_ob # add gs_obs[k] to gs_stb[p]\n        gs_stb[q] = gs_stb[p] # move gs_stb[p] to gs_stb[q]', ['R9.block'], SO)
M('c05-tc-project-guard', ['C05', 'C13'], TU, 'p = torch.logical_and(acqs, indices<N+r).nonzero()\n        if p.shape[0] > 0:\n            p = p[0].item()\n            acqs[0:p+1] = False', 'p = torch.logical_and(acqs, indices<N).nonzero()\n        if p.shape[0] > 0:\n            p = p[0].item()\n            acqs[0:p+1] = False', ['R9.pivot'])
M('c05-tc-project-r', ['C05', 'C13'], TU, '            if not (r <= p < N):\n                r -= 1 # rank will reduce under extension', '            if not (r < p < N):\n                r -= 1 # rank will reduce under extension', ['R9.block'])
M('c05-random-signs', ['C05', 'C16'], PS, '    gs = random_clifford(N) # shape (2*N, 2*N), mapping matrix\n    ps = 2 * numpy.random.randint(0,2,2*N)', '    gs = random_clifford(N) # shape (2*N, 2*N), mapping matrix\n    ps = numpy.random.randint(0,2,2*N)', ['R3a'])
M('c05-one-state', ['C05'], PS, '    ps = (2*numpy.ones(2*N)).astype(int)', '    ps = (numpy.ones(2*N)).astype(int)', ['R3a'])
M('c05-getprob-bit', ['C05', 'C07'], PS, 'readout_state.ps[:self.N]=2*readout', 'readout_state.ps[:self.N]=readout', ['R3a'])
M('c05-tostate-r', ['C05', 'C12'], PS, '        return StabilizerState(gs, ps).set_r(r)', '        return StabilizerState(gs, r).set_r(r)', ['R2', 'R4d'])
M('c05-measurelayer-r', ['C05', 'C14'], PC, '        obj.gs, obj.ps, obj.r, tmp_out, tmp_log2prob = \\', '        obj.gs, obj.ps, tmp_r, tmp_out, tmp_log2prob = \\', ['R5'])
M('c05-state-r', ['C05', 'C12'], PS, '    state.gs, state.r = stabilizer_project(state.gs, numpy.flipud(stabilizers.gs), state.r)', '    state.gs, _ = stabilizer_project(state.gs, numpy.flipud(stabilizers.gs), state.r)', ['R5'])
M('c05-setr', ['C05'], PS, "        self.r = 0 if r is None else r\n        return self", "        self.r = 0\n        return self", ['R2.set_r', 'R4d'])
M('c05-tomap-swap', ['C05', 'C12'], PS, '        gs, ps = state_to_map(self.gs, self.ps)\n        return CliffordMap(gs, ps)', '        ps, gs = state_to_map(self.gs, self.ps)\n        return CliffordMap(gs, ps)', ['R2'])
