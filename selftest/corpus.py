"""Mutant / benign-twin corpus.  Each case: id, props (checks expected to react), edits [(file, old, new)],
kind 'mutant' (default; every listed check must report a VIOLATION) or 'benign' (every listed check must
pass), optional rules (prefixes of rule ids, one of which must be among the findings)."""

PU, PP, PS, PC, PD = ('pyclifford/utils.py', 'pyclifford/paulialg.py', 'pyclifford/stabilizer.py',
                      'pyclifford/circuit.py', 'pyclifford/device.py')
TU, TP, TS, TC = ('torchclifford/utils.py', 'torchclifford/paulialg.py', 'torchclifford/stabilizer.py',
                  'torchclifford/circuit.py')

CASES = []


def M(id, props, file, old, new, rules=None):
    CASES.append({'id': id, 'props': props if isinstance(props, list) else [props],
                  'edits': [(file, old, new)], 'kind': 'mutant', 'rules': rules})


def B(id, props, file, old, new):
    CASES.append({'id': id, 'props': props if isinstance(props, list) else [props],
                  'edits': [(file, old, new)], 'kind': 'benign'})


# ------------------------------------------------------------------ C01
M('c01-ipow-sign', ['C01'], PU, 'ipow += g1z * g2x - g1x * g2z + 2*', 'ipow += g1x * g2z - g1z * g2x + 2*', ['R8'])
M('c01-ipow-drop2', ['C01'], PU, '+ 2*((gx//2) * gz + gx * (gz//2))', '+ ((gx//2) * gz + gx * (gz//2))', ['R8'])
M('c01-acq-index', ['C01'], PU, 'acq += g1[2*i+1]*g2[2*i] - g1[2*i]*g2[2*i+1]', 'acq += g1[2*i+1]*g2[2*i] - g1[2*i]*g2[2*i]', ['R8'])
M('c01-acq-mod', ['C01'], PU, '    return acq % 2', '    return acq % 4', ['R8'])
M('c01-ipow-init', ['C01'], PU, '    ipow = 0\n', '    ipow = 1\n', ['R8'])
M('c01-acq-slot', ['C01'], PU, 'acq += g1[2*i+1]*g2[2*i]', 'acq += g1[2*i+2]*g2[2*i]', ['R8'])
M('c01-matmul-drop-p', ['C01'], PP, 'p = (self.p + other.p + ipow(self.g, other.g)) % 4', 'p = (self.p + ipow(self.g, other.g)) % 4', ['R7e'])
M('c01-matmul-swap', ['C01'], PP, 'ipow(self.g, other.g)) % 4', 'ipow(other.g, self.g)) % 4', ['R7c'])
M('c01-batchdot-swap', ['C01'], PU, 'ipow(gs1[j1], gs2[j2]))%4', 'ipow(gs2[j2], gs1[j1]))%4', ['R7c'])
M('c01-batchdot-mod', ['C01'], PU, 'ps[j1,j2] = (ps1[j1] + ps2[j2] + ipow(gs1[j1], gs2[j2]))%4', 'ps[j1,j2] = (ps1[j1] + ps2[j2] + ipow(gs1[j1], gs2[j2]))', ['R7d'])
M('c01-batchdot-noipow', ['C01'], PU, 'ps[j1,j2] = (ps1[j1] + ps2[j2] + ipow(gs1[j1], gs2[j2]))%4', 'ps[j1,j2] = (ps1[j1] + ps2[j2])%4', ['R7a'])
M('c01-tc-ipow-drop2', ['C01', 'C13'], TU, "    return torch.sum(g1z * g2x - g1x * g2z + 2*(torch.div(gx, 2, rounding_mode='floor') * gz + gx * torch.div(gz, 2, rounding_mode='floor')), dim=-1) % 4", "    return torch.sum(g1z * g2x - g1x * g2z, dim=-1) % 4", ['R8'])
M('c01-tc-acq-slice', ['C01'], TU, '    gz1, gz2 = g1[...,1::2], g2[...,1::2]\n    return torch.sum(', '    gz1, gz2 = g1[...,1::2], g2[...,::2]\n    return torch.sum(', ['R8'])
M('c01-tc-bcast', ['C01'], TU, 'cs = (cs1.unsqueeze(1)*cs2.unsqueeze(0)).view(-1,)', 'cs = (cs1.unsqueeze(0)*cs2.unsqueeze(1)).view(-1,)', ['R13'])
M('c01-tc-repeat', ['C01'], TU, 'g1[...,1::2].repeat(1, L2).view(L1*L2, -1)', 'g1[...,1::2].repeat(L2, 1).view(L1*L2, -1)', ['R13'])
M('c01-poly-order', ['C01'], PP, 'batch_dot(self.gs, self.ps, self.cs, other.gs, other.ps, other.cs)', 'batch_dot(other.gs, other.ps, other.cs, self.gs, self.ps, self.cs)', ['R2'])
M('c01-poly-owner', ['C01'], PP, 'batch_dot(self.gs, self.ps, self.cs, other.gs, other.ps, other.cs)', 'batch_dot(self.gs, other.ps, self.cs, other.gs, self.ps, other.cs)', ['R2'])
M('c01-coef', ['C01'], PU, 'cs[j1,j2] = cs1[j1] * cs2[j2]', 'cs[j1,j2] = cs1[j1] * cs1[j1]', ['R7.coef'])
B('c01-benign-commute', ['C01'], PU, 'ipow += g1z * g2x - g1x * g2z + 2*((gx//2) * gz + gx * (gz//2))', 'ipow += 2*(gx * (gz//2) + (gx//2) * gz) - g1x * g2z + g2x * g1z')
B('c01-benign-rename', ['C01'], PU, '        acq += g1[2*i+1]*g2[2*i] - g1[2*i]*g2[2*i+1]\n    return acq % 2', '        acq += g1[1+2*i]*g2[i*2] - g1[2*i]*g2[2*i+1]\n    return acq % 2')
B('c01-benign-matmul-order', ['C01'], PP, 'p = (self.p + other.p + ipow(self.g, other.g)) % 4', 'p = (ipow(self.g, other.g) + other.p + self.p) % 4')
