"""Benign batch 2: in every function of both packages, rename ALL locals at once (x -> x_rn, positions taken from the
syntax tree, so keyword names, attributes and strings are untouched).  Behaviour is unchanged by construction, so every
claimed check must stay silent on every twin.
    /venv/bin/python -m selftest.benign_rename_all [--only substring]
Exit 0 iff no twin raises a VIOLATION or ANALYSIS-ERROR."""
import ast
import os
import sys

sys.path.insert(0, os.path.dirname(os.path.dirname(os.path.abspath(__file__))))
from selftest.runner import run_cases  # noqa: E402
from pcverif.model import LIVE  # noqa: E402

ALL = ['C%02d' % i for i in range(1, 21) if i != 8]
ROOT = '/repo'


def offsets(src):
    offs, o = [0], 0
    for line in src.splitlines(keepends=True):
        o += len(line)
        offs.append(o)
    return offs


KW = None
PARAMS = '--params' in sys.argv


def kwnames():
    global KW
    if KW is None:
        KW = set()
        for pkg, names in LIVE.items():
            for n in names:
                for c in ast.walk(ast.parse(open(os.path.join(ROOT, pkg, n + '.py')).read())):
                    if isinstance(c, ast.Call):
                        KW.update(k.arg for k in c.keywords if k.arg)
    return KW


def renamed(src, fn):
    """Text of function `fn` with all of its own locals renamed (with --params: also the parameters that no call in the
    packages passes by keyword, except self); None when there is nothing to rename."""
    params = {a.arg for a in fn.args.posonlyargs + fn.args.args + fn.args.kwonlyargs}
    if fn.args.vararg:
        params.add(fn.args.vararg.arg)
    if fn.args.kwarg:
        params.add(fn.args.kwarg.arg)
    declared = set()
    inner = set()
    for n in ast.walk(fn):
        if isinstance(n, (ast.Global, ast.Nonlocal)):
            declared.update(n.names)
        if n is not fn and isinstance(n, (ast.FunctionDef, ast.Lambda, ast.ClassDef)):
            inner.add(n)
    if inner:
        return None        # nested scopes: keep it simple, skip
    locs = {n.id for n in ast.walk(fn) if isinstance(n, ast.Name) and isinstance(n.ctx, ast.Store)} - params - declared
    locs.discard('_')
    pren = set()
    if PARAMS:
        pren = {p for p in params if p not in ('self', 'cls') and p not in kwnames()}
        locs |= pren
    if not locs:
        return None
    # a byte-exact column offset needs ascii source lines; the analysed files are ascii in code positions
    offs = offsets(src)
    lines = src.splitlines(keepends=True)
    sites = []
    for n in ast.walk(fn):
        if isinstance(n, ast.Name) and n.id in locs:
            line = lines[n.lineno - 1]
            col = len(line.encode()[:n.col_offset].decode())
            sites.append((offs[n.lineno - 1] + col, n.id))
        elif isinstance(n, ast.arg) and n.arg in pren:
            line = lines[n.lineno - 1]
            col = len(line.encode()[:n.col_offset].decode())
            sites.append((offs[n.lineno - 1] + col, n.arg))
    lo = offs[fn.lineno - 1]
    hi = offs[fn.end_lineno]
    seg = src[lo:hi]
    out = seg
    for pos, name in sorted(sites, reverse=True):
        rel = pos - lo
        assert out[rel:rel + len(name)] == name, (fn.name, name)
        out = out[:rel] + name + '_rn' + out[rel + len(name):]
    return seg, out


def cases(only=None):
    res = []
    for pkg, names in LIVE.items():
        for n in names:
            rel = '%s/%s.py' % (pkg, n)
            src = open(os.path.join(ROOT, rel)).read()
            tree = ast.parse(src)

            def visit(body, prefix):
                for st in body:
                    if isinstance(st, ast.ClassDef):
                        visit(st.body, prefix + st.name + '.')
                    elif isinstance(st, ast.FunctionDef):
                        qual = prefix + st.name
                        r = renamed(src, st)
                        if r is None:
                            continue
                        cid = 'renall%s-%s-%s-%s' % ('p' if PARAMS else '', pkg[:2], n, qual)
                        if only and only not in cid:
                            continue
                        if src.count(r[0]) != 1:
                            continue
                        res.append({'id': cid, 'props': ALL, 'edits': [(rel, r[0], r[1], None)], 'kind': 'benign'})
            visit(tree.body, '')
    return res


def emit(dst):
    """Write a copy of both packages with EVERY function's locals renamed (one tree, for iterating on the rules)."""
    import shutil
    for pkg, names in LIVE.items():
        os.makedirs(os.path.join(dst, pkg), exist_ok=True)
        for n in names:
            rel = '%s/%s.py' % (pkg, n)
            src = open(os.path.join(ROOT, rel)).read()
            tree = ast.parse(src)
            reps = []

            def visit(body):
                for st in body:
                    if isinstance(st, ast.ClassDef):
                        visit(st.body)
                    elif isinstance(st, ast.FunctionDef):
                        r = renamed(src, st)
                        if r is not None and src.count(r[0]) == 1:
                            reps.append(r)
            visit(tree.body)
            for old, new in reps:
                src = src.replace(old, new)
            compile(src, rel, 'exec')
            open(os.path.join(dst, rel), 'w').write(src)


def main():
    if '--emit' in sys.argv:
        emit(sys.argv[sys.argv.index('--emit') + 1])
        return
    only = sys.argv[sys.argv.index('--only') + 1] if '--only' in sys.argv else None
    cs = cases(only)
    res = run_cases(cs, jobs=16)
    bad = 0
    for r in res:
        if r[1] == 'skipped':
            print('SKIP', r[0], r[2])
            continue
        viol = [p for p, c, _, _ in r[3] if c == 1]
        err = [p for p, c, _, _ in r[3] if c == 2]
        if viol or err:
            bad += 1
            print(r[0], 'VIOLATION:', viol, 'ANALYSIS-ERROR:', err)
            for p, c, rl, sites in r[3]:
                if c in (1, 2):
                    for s in sites[:3]:
                        print('     ', p, c, s[:220])
    print(len(res), 'twins;', bad, 'with problems')
    sys.exit(1 if bad else 0)


if __name__ == '__main__':
    main()
