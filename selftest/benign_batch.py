"""Benign-refactor batch: behaviour-preserving edits (local renames, keyword
forms, flipped branches, reordered commutative sums) applied to a scratch copy
of /repo; every claimed check must stay silent (exit 0) on each.  Run with
    /venv/bin/python -m selftest.benign_batch
Exit 0 iff no twin raises a VIOLATION or ANALYSIS-ERROR."""
import sys, os
sys.path.insert(0, os.path.dirname(os.path.dirname(os.path.abspath(__file__))))
from selftest.runner import run_cases
PU, PP, PS, PC, PD = ('pyclifford/utils.py', 'pyclifford/paulialg.py', 'pyclifford/stabilizer.py','pyclifford/circuit.py', 'pyclifford/device.py')
TU, TP, TS, TC = ('torchclifford/utils.py', 'torchclifford/paulialg.py', 'torchclifford/stabilizer.py','torchclifford/circuit.py')
ALL=['C%02d'%i for i in range(1,21) if i!=8]
cases=[]
def B(id, edits):
    cases.append({'id':id,'props':ALL,'edits':edits,'kind':'benign'})
def rename(file, scope, old, new):
    # rename identifier old->new inside scope via regex on word boundaries
    import re, ast
    from selftest.runner import scope_span
    src=open('/repo/'+file).read()
    lo,hi=scope_span(src,scope)
    seg=src[lo:hi]
    new_seg=re.sub(r'(?<![\w.])%s(?!\w)'%re.escape(old), new, seg)
    return (file, seg, new_seg, None)
B('ren-cliffmap-fwd',[rename(PC,'CliffordGate.forward','clifford_map','cmap')])
B('ren-cliffmap-bwd',[rename(PC,'CliffordGate.backward','clifford_map','cmap')])
B('ren-mask2-rot',[rename(PP,'PauliList.rotate_by','mask2','cols')])
B('ren-mask2-embed',[rename(PS,'CliffordMap.embed','mask2','cols')])
B('ren-gsinv',[rename(PS,'CliffordMap.inverse','gs_inv','ginv')])
B('ren-psmis',[rename(PS,'CliffordMap.inverse','ps_mis','mismatch')])
B('ren-pointer',[rename(PC,'Circuit.backward','pointer','ptr')])
B('ren-tmpres',[rename(PC,'MeasureLayer.backward','tmp_res','bit')])
B('ren-tmp',[rename(PC,'MeasureLayer.backward','tmp','codes')])
B('ren-newlayer',[rename(PC,'CliffordCircuit.take','new_layer','nl')])
B('ren-j-measure',[rename(PU,'stabilizer_measure','j','row')])
B('ren-extend',[rename(PU,'stabilizer_measure','extend','standby_hit')])
B('ren-update',[rename(PU,'stabilizer_measure','update','found')])
B('ren-pa',[rename(PU,'stabilizer_measure','pa','pacc')])
B('ren-q',[rename(PU,'stabilizer_project','q','partner')])
B('ren-trace',[rename(PU,'stabilizer_projection_trace','trace','tr')])
B('ren-prob',[rename(PU,'stabilizer_postselection','prob','pr')])
B('ren-out',[rename(PU,'stabilizer_measure','out','outcomes')])
B('ren-xs',[rename(PU,'stabilizer_expect','xs','vals')])

B('ren-readout-state',[rename(PS,'StabilizerState.get_prob','readout_state','basis')])
B('ren-state',[rename(PS,'stabilizer_state','state','st')])
B('ren-circ-i0',[rename(PC,'SBRG','circ_i0','ci')])
B('ren-htmp',[rename(PC,'SBRG','htmp','work')])
B('ren-snapshot',[rename(PD,'ClassicalShadow.snapshots','snapshot','snap')])
B('ren-gate-copy',[rename(PC,'CliffordGate.copy','gate','g2')])
B('ren-layer-var',[rename(PC,'CliffordCircuit.forward','layer','lay')])
B('ren-txt',[rename(PP,'Pauli.__repr__','txt','s')])
B('ren-h',[rename(PP,'pauli','h','skipped')])
B('ren-inds',[rename(PP,'PauliPolynomial.reduce','inds','inverse')])
B('ren-mask-reduce',[rename(PP,'PauliPolynomial.reduce','mask','keep')])
B('ren-log2prob',[rename(PU,'stabilizer_measure','log2prob','lp')])
B('ren-C',[rename(PS,'StabilizerState.sample','C','sel')])
# keyword / form refactors
B('kw-transform',[(PP,'            self.gs, self.ps = pauli_transform(self.gs, self.ps, \n                clifford_map.gs, clifford_map.ps)','            self.gs, self.ps = pauli_transform(gs_in=self.gs, ps_in=self.ps, \n                gs_map=clifford_map.gs, ps_map=clifford_map.ps)',None)])
B('range0',[(PU,'    for j in range(L):\n        if acq(g, gs[j]):\n            ps[j]','    for j in range(0, L):\n        if acq(g, gs[j]):\n            ps[j]',None)])
B('ifelse-flip',[(PC,'        if self.forward_map is None:\n            for layer in self.layers_forward():\n                layer.forward(obj)\n        else:\n            obj.transform_by(self.forward_map)\n        return obj\n\n    def backward(self, obj):\n        if self.backward_map is None:\n            for layer in self.layers_backward():','        if self.forward_map is not None:\n            obj.transform_by(self.forward_map)\n        else:\n            for layer in self.layers_forward():\n                layer.forward(obj)\n        return obj\n\n    def backward(self, obj):\n        if self.backward_map is None:\n            for layer in self.layers_backward():',None)])
B('copy-array',[(PS,'        return StabilizerState(self.gs.copy(), self.ps.copy()).set_r(self.r)','        return StabilizerState(numpy.array(self.gs), numpy.array(self.ps)).set_r(self.r)',None)])
B('copy-kw-r',[(PS,'        return StabilizerState(self.gs.copy(), self.ps.copy()).set_r(self.r)','        return StabilizerState(self.gs.copy(), self.ps.copy(), r=self.r)',None)])
B('partner-ng',[(PU,'            q = (p+N)%(2*N) # get q as dual of p \n            gs_stb[q] = gs_stb[p] # move gs_stb[p] to gs_stb[q]\n            gs_stb[p] = gs_obs[k] # add gs_obs[k] to gs_stb[p]\n            if extend:\n                r -= 1 # rank will reduce under extension\n                # bring new stabilizer from p to r\n                if p == r:\n                    pass\n                elif q == r:\n                    gs_stb[numpy.array([p,q])] = gs_stb[numpy.array([q,p])] # swap p,q\n                else:\n                    s = (r+N)%(2*N) # get s as dual of r\n                    gs_stb[numpy.array([p,r])] = gs_stb[numpy.array([r,p])] # swap p,r\n                    gs_stb[numpy.array([q,s])] = gs_stb[numpy.array([s,q])] # swap q,s\n                p = r\n            # as long','            q = (p+N)%Ng # get q as dual of p \n            gs_stb[q] = gs_stb[p] # move gs_stb[p] to gs_stb[q]\n            gs_stb[p] = gs_obs[k] # add gs_obs[k] to gs_stb[p]\n            if extend:\n                r = r - 1 # rank will reduce under extension\n                # bring new stabilizer from p to r\n                if p != r:\n                    if q == r:\n                        gs_stb[numpy.array([p,q])] = gs_stb[numpy.array([q,p])] # swap p,q\n                    else:\n                        s = (r+N)%Ng # get s as dual of r\n                        gs_stb[numpy.array([q,s])] = gs_stb[numpy.array([s,q])] # swap q,s\n                        gs_stb[numpy.array([p,r])] = gs_stb[numpy.array([r,p])] # swap p,r\n                p = r\n            # as long',None)])
B('neg-inline',[(PC,'                obj.rotate_by(-self.generator, mask(self.qubits, obj.N))','                obj.rotate_by(-self.generator, mask=mask(self.qubits, obj.N))',None)])
B('aug-phase',[(PU,"                ps_out[j_out] = (ps_out[j_out] + ps_in[j_in] + ipow(gs_out[j_out], gs_in[j_in]))%4","                ps_out[j_out] = (ipow(gs_out[j_out], gs_in[j_in]) + ps_in[j_in] + ps_out[j_out])%4",None)])
B('decode-eq',[(PU,"            out[k] = ((ps_stb[p] - ps_obs[k])%4)//2 #0->0","            out[k] = 0 if ps_stb[p] == ps_obs[k] else 1 #0->0",None)])
B('len-check',[(PC,'    if len(qubits)!=2:\n        raise ValueError("CNOT gate acts on two qubit.")','    if not len(qubits)==2:\n        raise ValueError("CNOT gate acts on two qubit.")',None)])
B('getitem-tmp',[(PP,'        return PauliList(self.gs[item], self.ps[item])','        gs, ps = self.gs[item], self.ps[item]\n        return PauliList(gs, ps)',None)])
res=run_cases(cases, jobs=16)
bad=0
for r in res:
    codes={p:c for p,c,_,_ in r[3]}
    viol=[p for p,c in codes.items() if c==1]
    err=[p for p,c in codes.items() if c==2]
    if r[1]=='skipped': print('SKIP',r[0],r[2]); continue
    if viol or err:
        bad+=1
        print(r[0],'VIOLATION:',viol,'ANALYSIS-ERROR:',err)
        for p,c,rl,sites in r[3]:
            if c in (1,2):
                for s in sites[:3]: print('     ',p,c,s[:200])
print(len(res),'twins;',bad,'with problems')
sys.exit(1 if bad else 0)
